"""Bounded stand-in for C03 (sparse element-wise ops == dense semantics) and the
operator part of C06 (well-formed results, independence of stored order)."""

import itertools
import operator

import numpy as np

from .core import (Fail, VALUE_POOL, all_subs, check, den_sp, import_pyttb, mk_sptensor, orders_of,
                   patterns, same, shapes_upto, wf_sptensor)


def _shapes(tier):
    if tier == "quick":
        return [(1,), (2,), (3,), (1, 1), (2, 1), (1, 2), (2, 2), (3, 1), (2, 1, 2), (2, 2, 2)]
    return shapes_upto(8, 3)


def _vals_for(pattern, rng, signed=True):
    pool = VALUE_POOL if signed else [v for v in VALUE_POOL if v > 0]
    return [pool[rng.randrange(len(pool))] for _ in pattern]


def expand(ttb, R, what):
    """Dense array denoted by a result (sptensor / tensor / ndarray / scalar)."""
    if isinstance(R, ttb.sptensor):
        try:
            wf_sptensor(R, what, zero_free=False)
        except Fail as f:
            raise Fail("result-not-wellformed:" + f.sig, f.msg)
        return den_sp(R)
    if isinstance(R, ttb.tensor):
        return np.asarray(R.data, dtype=float)
    return np.asarray(R, dtype=float)


def _truth(a):
    return (np.asarray(a) != 0).astype(float)


BIN_OPS = {
    "add": (lambda a, b: a + b, lambda x, y: x + y),
    "sub": (lambda a, b: a - b, lambda x, y: x - y),
    "mul": (lambda a, b: a * b, lambda x, y: x * y),
    "div": (lambda a, b: a / b, lambda x, y: x / y),
    "and": (lambda a, b: a.logical_and(b), lambda x, y: _truth(np.logical_and(x != 0, y != 0))),
    "or": (lambda a, b: a.logical_or(b), lambda x, y: _truth(np.logical_or(x != 0, y != 0))),
    "xor": (lambda a, b: a.logical_xor(b), lambda x, y: _truth(np.logical_xor(x != 0, y != 0))),
    "eq": (lambda a, b: a == b, lambda x, y: _truth(x == y)),
    "ne": (lambda a, b: a != b, lambda x, y: _truth(x != y)),
    "lt": (lambda a, b: a < b, lambda x, y: _truth(x < y)),
    "le": (lambda a, b: a <= b, lambda x, y: _truth(x <= y)),
    "gt": (lambda a, b: a > b, lambda x, y: _truth(x > y)),
    "ge": (lambda a, b: a >= b, lambda x, y: _truth(x >= y)),
}


def _apply(case, ttb):
    shp = tuple(case["shape"])
    A = mk_sptensor(ttb, shp, case["asubs"], case["avals"])
    da = np.zeros(shp)
    for s, v in zip(case["asubs"], case["avals"]):
        da[tuple(s)] = v
    kind = case["rhs"]
    if kind == "sparse":
        B = mk_sptensor(ttb, shp, case["bsubs"], case["bvals"])
        db = np.zeros(shp)
        for s, v in zip(case["bsubs"], case["bvals"]):
            db[tuple(s)] = v
    elif kind == "dense":
        db = np.zeros(shp)
        for s, v in zip(case["bsubs"], case["bvals"]):
            db[tuple(s)] = v
        B = ttb.tensor(db.copy())
    else:
        B = db = case["scalar"]
    f, g = BIN_OPS[case["op"]]
    with np.errstate(all="ignore"):
        exp = np.asarray(g(da, db), dtype=float)
    R = f(A, B)
    return R, exp


@check("c03.binary", ["C03", "C06"], [
    "pyttb.sptensor.sptensor.__add__", "pyttb.sptensor.sptensor.__sub__", "pyttb.sptensor.sptensor.__mul__",
    "pyttb.sptensor.sptensor.__truediv__", "pyttb.sptensor.sptensor.logical_and", "pyttb.sptensor.sptensor.logical_or",
    "pyttb.sptensor.sptensor.logical_xor", "pyttb.sptensor.sptensor.__eq__", "pyttb.sptensor.sptensor.__ne__",
    "pyttb.sptensor.sptensor._compare", "pyttb.sptensor.sptensor.from_aggregator",
    "pyttb.pyttb_utils.tt_intersect_rows", "pyttb.pyttb_utils.tt_setdiff_rows"])
class _:
    """Every operator x every right-hand-side kind over pairs of sparsity patterns
    (exhaustive for <= 4 cells in quick, <= 6 cells thorough; sampled beyond), values of both
    signs, every stored order of each operand for <= 3 nonzeros (sampled beyond)."""

    def cases(self, tier, rng):
        exh = 4 if tier == "quick" else 6
        for shp in _shapes(tier):
            ncell = int(np.prod(shp))
            pats = list(patterns(shp, rng, exh, samples=4 if tier == "quick" else 10))
            for pa in pats:
                if ncell > exh:
                    pbs = [pats[rng.randrange(len(pats))] for _ in range(3)] + [[], list(pa)]
                else:
                    pbs = pats
                for pb in pbs:
                    va, vb = _vals_for(pa, rng), _vals_for(pb, rng)
                    # force some equal values on common positions so == / <= see both outcomes
                    common = [s for s in pa if s in pb]
                    if common and rng.random() < 0.6:
                        vb[pb.index(common[0])] = va[pa.index(common[0])]
                    # one stored order per operand here; order-independence has its own check
                    ia = list(range(len(pa)))
                    ib = list(range(len(pb)))
                    rng.shuffle(ia)
                    rng.shuffle(ib)
                    for op in BIN_OPS:
                        for rhs in ("sparse", "dense"):
                            yield dict(shape=list(shp), op=op, rhs=rhs,
                                       asubs=[list(pa[i]) for i in ia], avals=[va[i] for i in ia],
                                       bsubs=[list(pb[i]) for i in ib], bvals=[vb[i] for i in ib])
                sc = [0, 1, -1, 2.0, va[0] if pa else 3.0] if True else []
                va = _vals_for(pa, rng)
                ia = list(range(len(pa)))
                rng.shuffle(ia)
                for op in BIN_OPS:
                    for c in ([0, 2.0, -1, VALUE_POOL[rng.randrange(4)]]):
                        yield dict(shape=list(shp), op=op, rhs="scalar", scalar=c,
                                   asubs=[list(pa[i]) for i in ia], avals=[va[i] for i in ia], bsubs=[], bvals=[])

    @staticmethod
    def _n(k):
        return "0" if k == 0 else ("1" if k == 1 else "+")

    def classify(self, case):
        """operator, right-hand-side kind and operand sizes (0 / 1 / several nonzeros)."""
        c = f"{case['op']}:{case['rhs']}:A{self._n(len(case['asubs']))}"
        if case["rhs"] != "scalar":
            c += f"B{self._n(len(case['bsubs']))}"
        else:
            c += "c0" if case["scalar"] == 0 else ("c+" if case["scalar"] > 0 else "c-")
        return c

    def run(self, case):
        ttb = import_pyttb()
        R, exp = _apply(case, ttb)
        try:
            got = expand(ttb, R, f"{case['op']}({case['rhs']})")
        except Fail as f:
            raise Fail(f.sig + ":" + self.classify(case), f.msg + f" for {case}")
        if not same(got, exp):
            # class of the positions that differ: is the operand entry there zero (0) or not (n)?
            shp = tuple(case["shape"])
            da, db = np.zeros(shp), np.zeros(shp)
            for s_, v in zip(case["asubs"], case["avals"]):
                da[tuple(s_)] = v
            if case["rhs"] != "scalar":
                for s_, v in zip(case["bsubs"], case["bvals"]):
                    db[tuple(s_)] = v
            else:
                db[...] = case["scalar"]
            bad = ~((got == exp) | (np.isnan(got) & np.isnan(exp))) if got.shape == exp.shape else None
            if bad is None:
                pos = "shape"
            else:
                pos = ",".join(sorted({("a" + ("0" if da[i] == 0 else "n")) + ("b" + ("0" if db[i] == 0 else "n")) for i in zip(*np.nonzero(bad))}))
            raise Fail(f"value:{case['op']}:{case['rhs']}@{pos}", f"expected {exp.tolist()} got {got.tolist()} for {case}")


@check("c03.large", ["C03", "C06", "C17"], [
    "pyttb.sptensor.sptensor.__add__", "pyttb.sptensor.sptensor.__sub__", "pyttb.sptensor.sptensor.__mul__",
    "pyttb.sptensor.sptensor.logical_and", "pyttb.sptensor.sptensor.logical_or", "pyttb.sptensor.sptensor.logical_xor",
    "pyttb.sptensor.sptensor.__eq__", "pyttb.sptensor.sptensor.__ne__", "pyttb.sptensor.sptensor._compare",
    "pyttb.pyttb_utils.tt_ismember_rows", "pyttb.pyttb_utils.tt_intersect_rows", "pyttb.pyttb_utils.tt_setdiff_rows"])
class _:
    """Every operator on one pair of large sparse operands (20 x 20 x 20, about 1500 nonzeros each: the row helpers
    compare thousands of rows with thousands of rows), against dense semantics; plus the row helpers directly on
    matrices of that size."""

    def cases(self, tier, rng):
        for op in BIN_OPS:
            if op == "div":
                continue
            yield dict(op=op, seed=rng.randrange(10**6), shape=[20, 20, 20] if tier == "quick" else [24, 20, 22])
        yield dict(op="row-helpers", seed=rng.randrange(10**6), shape=[20, 20, 20])

    def classify(self, case):
        return case["op"]

    def run(self, case):
        ttb = import_pyttb()
        rs = np.random.RandomState(case["seed"])
        shp = tuple(case["shape"])
        ncell = int(np.prod(shp))

        def draw(n):
            lin = rs.choice(ncell, size=n, replace=False)
            subs = np.array(np.unravel_index(lin, shp)).T
            vals = rs.choice([-2.0, -1.0, 1.0, 2.0, 3.0], size=(n, 1))
            return subs, vals
        sa, va = draw(1500)
        sb, vb = draw(1400)
        # share a block of positions (some with equal values) so every branch of the operators sees data
        sb[:400] = sa[:400]
        vb[:200] = va[:200]
        _, first = np.unique(sb, axis=0, return_index=True)
        sb, vb = sb[np.sort(first)], vb[np.sort(first)]
        if case["op"] == "row-helpers":
            from pyttb.pyttb_utils import tt_intersect_rows, tt_ismember_rows, tt_setdiff_rows
            allr = np.array(np.unravel_index(np.arange(ncell), shp)).T
            key = lambda M: (M @ np.array([1, shp[0], shp[0] * shp[1]])).astype(int)
            pos = {k: i for i, k in enumerate(key(sa))}
            matched, loc = tt_ismember_rows(allr, sa)
            exp_loc = np.array([pos.get(k, -1) for k in key(allr)])
            if not np.array_equal(loc, exp_loc) or not np.array_equal(matched, exp_loc >= 0):
                raise Fail("ismember:large", f"{int((loc != exp_loc).sum())} of {ncell} locations differ")
            d = tt_setdiff_rows(allr, sa)
            if not np.array_equal(d, np.flatnonzero(exp_loc < 0)):
                raise Fail("setdiff:large", f"{len(d)} rows vs {int((exp_loc < 0).sum())}")
            common = tt_intersect_rows(sa, sb)
            inb = set(key(sb).tolist())
            posa = {k: i for i, k in enumerate(key(sa))}
            exp_c = [posa[k] for k in key(sb) if k in posa]
            if list(common) != exp_c:
                raise Fail("intersect:large", f"{len(common)} vs {len(exp_c)}")
            # thousands of rows on both sides, most of them common, B in another order and with repeats
            A4 = allr[rs.permutation(ncell)[:4000]]
            B3 = np.vstack([A4[rs.permutation(4000)[:3000]], allr[rs.permutation(ncell)[:200]], A4[:50]])
            pos4 = {k: i for i, k in enumerate(key(A4))}
            seen, exp_i = set(), []
            for k in key(B3).tolist():
                if k in pos4 and k not in seen:
                    exp_i.append(pos4[k])
                seen.add(k)
            got_i = tt_intersect_rows(A4, B3)
            if list(got_i) != exp_i:
                raise Fail("intersect:long-lists", f"{len(got_i)} row indices, set algebra on rows prescribes {len(exp_i)}")
            inB = set(key(B3).tolist())
            exp_d = [i for i, k in enumerate(key(A4).tolist()) if k not in inB]
            if list(tt_setdiff_rows(A4, B3)) != exp_d:
                raise Fail("setdiff:long-lists", f"expected {len(exp_d)} rows")
            m4, l4 = tt_ismember_rows(B3, A4)
            exp_l = np.array([pos4.get(k, -1) for k in key(B3).tolist()])
            if not np.array_equal(l4, exp_l) or not np.array_equal(m4, exp_l >= 0):
                raise Fail("ismember:long-lists", f"{int((l4 != exp_l).sum())} locations differ")
            return
        A = ttb.sptensor(sa.copy(), va.copy(), shp)
        B = ttb.sptensor(sb.copy(), vb.copy(), shp)
        da, db = np.zeros(shp), np.zeros(shp)
        da[tuple(sa.T)] = va.ravel()
        db[tuple(sb.T)] = vb.ravel()
        f, g = BIN_OPS[case["op"]]
        with np.errstate(all="ignore"):
            exp = np.asarray(g(da, db), dtype=float)
        got = expand(ttb, f(A, B), case["op"] + "(large)")
        if not same(got, exp):
            raise Fail(f"value:{case['op']}:large", f"{int((got != exp).sum())} of {ncell} entries differ (seed {case['seed']})")


UNARY = {
    "neg": (lambda a: -a, lambda x: -x),
    "pos": (lambda a: +a, lambda x: +x),
    "not": (lambda a: a.logical_not(), lambda x: _truth(x == 0)),
    "ones": (lambda a: a.ones(), lambda x: _truth(x != 0)),
    "elemfun-neg": (lambda a: a.elemfun(lambda v: -v), lambda x: -x),
    "elemfun-sq": (lambda a: a.elemfun(lambda v: v * v), lambda x: x * x),
    "elemfun-shift": (lambda a: a.elemfun(lambda v: v - 1), lambda x: np.where(x != 0, x - 1, 0)),
    "rmul": (lambda a: 2 * a, lambda x: 2 * x),
    "rdiv": (lambda a: 2 / a, lambda x: 2 / x),
    "add1": (lambda a: a + 1, lambda x: x + 1),
    "sub1": (lambda a: a - 1, lambda x: x - 1),
    "copy": (lambda a: a.copy(), lambda x: x),
    "full": (lambda a: a.full(), lambda x: x),
    "double": (lambda a: a.double(), lambda x: x),
}


@check("c03.unary", ["C03", "C06", "C01"], [
    "pyttb.sptensor.sptensor.__neg__", "pyttb.sptensor.sptensor.logical_not", "pyttb.sptensor.sptensor.ones",
    "pyttb.sptensor.sptensor.elemfun", "pyttb.sptensor.sptensor.full", "pyttb.sptensor.sptensor.double"])
class _:
    def cases(self, tier, rng):
        for shp in _shapes(tier):
            for pa in patterns(shp, rng, 4 if tier == "quick" else 8):
                va = _vals_for(pa, rng)
                ia = list(range(len(pa)))
                rng.shuffle(ia)
                for op in UNARY:
                    yield dict(shape=list(shp), op=op, asubs=[list(pa[i]) for i in ia], avals=[va[i] for i in ia])

    def run(self, case):
        ttb = import_pyttb()
        shp = tuple(case["shape"])
        A = mk_sptensor(ttb, shp, case["asubs"], case["avals"])
        da = np.zeros(shp)
        for s, v in zip(case["asubs"], case["avals"]):
            da[tuple(s)] = v
        f, g = UNARY[case["op"]]
        with np.errstate(all="ignore"):
            exp = np.asarray(g(da), dtype=float)
        R = f(A)
        got = expand(ttb, R, case["op"])
        if not same(got, exp):
            raise Fail(f"value:{case['op']}", f"expected {exp.tolist()} got {got.tolist()} for {case}")


@check("c03.after_mutation", ["C03", "C06", "C04"], [
    "pyttb.sptensor.sptensor.__eq__", "pyttb.sptensor.sptensor.__ne__", "pyttb.sptensor.sptensor._compare",
    "pyttb.sptensor.sptensor.logical_not", "pyttb.sptensor.sptensor.__truediv__", "pyttb.sptensor.sptensor.allsubs",
    "pyttb.sptensor.sptensor.__setitem__"])
class _:
    """Operators applied to an operand that was used before and then changed in place (an entry set, an entry zeroed,
    the tensor grown by an assignment outside its extent): the result must describe the operand as it is now."""

    def cases(self, tier, rng):
        shapes = [(2, 2), (2, 1, 2), (3,)] if tier == "quick" else [(2, 2), (2, 1, 2), (3,), (2, 3), (2, 2, 2)]
        for shp in shapes:
            for pa in patterns(shp, rng, 3 if tier == "quick" else 6):
                for change in ("grow", "set-inside", "grow-then-set"):
                    yield dict(shape=list(shp), asubs=[list(s) for s in pa], avals=_vals_for(pa, rng), change=change, seed=rng.randrange(10**6))

    def classify(self, case):
        return case["change"]

    def run(self, case):
        ttb = import_pyttb()
        shp = tuple(case["shape"])
        N = len(shp)
        rs = np.random.RandomState(case["seed"])
        A = mk_sptensor(ttb, shp, case["asubs"], case["avals"])
        da = np.zeros(shp)
        for s, v in zip(case["asubs"], case["avals"]):
            da[tuple(s)] = v
        ops = {k: BIN_OPS[k] for k in ("eq", "ne", "lt", "le", "gt", "ge", "div", "and", "or", "xor", "add", "sub", "mul")}
        un = {k: UNARY[k] for k in ("not", "ones", "neg", "full", "add1", "rdiv")}

        def sweep(A, da, stage):
            B = ttb.tensor(np.where(rs.rand(*da.shape) < 0.5, 1.0, 0.0)).to_sptensor()
            db = np.zeros(da.shape)
            if B.nnz:
                db[tuple(B.subs.T)] = B.vals.ravel()
            for nm, (f, g) in ops.items():
                for rhs_nm, rhs, drhs in (("scalar0", 0, 0), ("scalar1", 1, 1), ("sparse", B, db), ("self", A, da)):
                    with np.errstate(all="ignore"):
                        exp = np.asarray(g(da, drhs), dtype=float)
                        got = expand(ttb, f(A, rhs), f"{nm}({rhs_nm})")
                    if not same(got, exp):
                        raise Fail(f"{stage}:{nm}:{rhs_nm}", f"{case}: expected {exp.tolist()} got {got.tolist()}")
            for nm, (f, g) in un.items():
                with np.errstate(all="ignore"):
                    exp = np.asarray(g(da), dtype=float)
                    got = expand(ttb, f(A), nm)
                if not same(got, exp):
                    raise Fail(f"{stage}:{nm}", f"{case}: expected {exp.tolist()} got {got.tolist()}")
        sweep(A, da, "fresh")
        if "grow" in case["change"]:
            key = tuple(d for d in shp[:-1]) + (shp[-1] + 1,)       # one past the extent in every mode but the last, two in the last
            key = tuple(k if m == N - 1 else shp[m] - 1 for m, k in enumerate(key))
            A[key] = 5.0
            new = tuple(max(d, k + 1) for d, k in zip(shp, key))
            db_ = np.zeros(new)
            db_[tuple(slice(0, d) for d in shp)] = da
            db_[key] = 5.0
            da = db_
            if tuple(A.shape) != new:
                raise Fail("harness-or-growth", f"{case}: shape {A.shape} after assignment at {key}")
        if "set" in case["change"]:
            k0 = (0,) * N
            A[k0] = 0.0 if da[k0] != 0 else -3.0
            da[k0] = 0.0 if da[k0] != 0 else -3.0
        sweep(A, da, "after-" + case["change"])


@check("c03.nonfinite", ["C03", "C06"], [
    "pyttb.sptensor.sptensor.__eq__", "pyttb.sptensor.sptensor.__ne__", "pyttb.sptensor.sptensor._compare",
    "pyttb.sptensor.sptensor.__mul__", "pyttb.sptensor.sptensor.logical_and", "pyttb.sptensor.sptensor.logical_or",
    "pyttb.sptensor.sptensor.logical_xor", "pyttb.sptensor.sptensor.logical_not"])
class _:
    """Comparison and logical operators on operands that store infinities (as produced by a division by zero), also
    at the same position in both operands: the answer is the dense answer (inf == inf, not inf != inf, inf is true)."""

    def cases(self, tier, rng):
        pool = [np.inf, -np.inf, 1.0, -2.0, 3.0]
        for shp in ((2, 2), (3,), (2, 1, 2)):
            for pa in patterns(shp, rng, 4, samples=4):
                for rep in range(2 if tier == "quick" else 5):
                    pb = [s for s in all_subs(shp) if rng.random() < 0.5]
                    va = [pool[rng.randrange(len(pool))] for _ in pa]
                    vb = [pool[rng.randrange(len(pool))] for _ in pb]
                    common = [s for s in pa if s in pb]
                    for c in common[:2]:
                        vb[pb.index(c)] = va[pa.index(c)]          # the same value (possibly an infinity) in both
                    yield dict(shape=list(shp), asubs=[list(s) for s in pa], avals=va, bsubs=[list(s) for s in pb], bvals=vb)

    def run(self, case):
        ttb = import_pyttb()
        shp = tuple(case["shape"])
        A = mk_sptensor(ttb, shp, case["asubs"], case["avals"])
        B = mk_sptensor(ttb, shp, case["bsubs"], case["bvals"])
        da, db = np.zeros(shp), np.zeros(shp)
        for s, v in zip(case["asubs"], case["avals"]):
            da[tuple(s)] = v
        for s, v in zip(case["bsubs"], case["bvals"]):
            db[tuple(s)] = v
        for nm in ("eq", "ne", "lt", "le", "gt", "ge", "and", "or", "xor"):
            f, g = BIN_OPS[nm]
            for rhs_nm, rhs, drhs in (("sparse", B, db), ("self", A, da), ("dense", ttb.tensor(db.copy()), db), ("inf", np.inf, np.inf), ("zero", 0, 0)):
                if rhs_nm in ("inf",) and nm in ("and", "or", "xor"):
                    continue
                with np.errstate(all="ignore"):
                    exp = np.asarray(g(da, drhs), dtype=float)
                    got = expand(ttb, f(A, rhs), f"{nm}({rhs_nm})")
                if not same(got, exp):
                    raise Fail(f"{nm}:{rhs_nm}", f"{case}: expected {exp.tolist()} got {got.tolist()}")
        with np.errstate(all="ignore"):
            if not same(expand(ttb, A.logical_not(), "not"), _truth(da == 0)):
                raise Fail("not", f"{case}")
