#!/usr/bin/env python
"""Per-property orchestration: proof stage (pyvc), bounded stand-in stage, known findings,
evidence, verdict.  Usage: ./check <Cxx> [--tier quick|thorough] | --replay FILE | --rebaseline [Cxx ...]"""

from __future__ import annotations

import argparse
import importlib
import json
import os
import re
import sys
import time
import traceback
import zlib

HERE = os.path.dirname(os.path.abspath(__file__))
sys.path.insert(0, HERE)
REPO = os.environ.get("PYTTB_REPO", "/repo")
os.environ.setdefault("PYTTB_REPO", REPO)

BASELINE_PATH = os.path.join(HERE, "contracts", "BASELINE_OBLIGATIONS.json")
HINTS_PATH = os.path.join(HERE, "contracts", "SOLVER_HINTS.json")
KNOWN_PATH = os.path.join(HERE, "KNOWN_FINDINGS.jsonl")
# VERIF_OUT redirects evidence and replays (used by the self-tests, which run the checks against
# scratch copies and must not overwrite the evidence of /repo)
_OUT = os.environ.get("VERIF_OUT") or HERE
EVID_DIR = os.path.join(_OUT, "evidence")
REPLAY_DIR = os.path.join(_OUT, "replays")

CONTRACT_MODULES = ["utils", "sptensor", "tensor", "ktensor", "mats", "algos", "gcp", "misc"]
STANDIN_MODULES = ["c01", "c02", "c03", "c04", "c05", "c06", "c07", "c08", "c09", "c10", "c12", "c13",
                   "c14", "c15", "c16", "c17", "c18", "c19", "c20"]


def load_contracts():
    from pyvc.contract import REGISTRY
    for m in CONTRACT_MODULES:
        try:
            importlib.import_module("contracts." + m)
        except ModuleNotFoundError as e:
            if f"contracts.{m}" not in str(e):
                raise
    return REGISTRY


def load_standins():
    from standin.core import CHECKS
    for m in STANDIN_MODULES:
        try:
            importlib.import_module("standin." + m)
        except ModuleNotFoundError as e:
            if f"standin.{m}" not in str(e):
                raise
    return CHECKS


def norm_label(name: str) -> str:
    """Obligation name without path id, line numbers and uniqueness suffixes, so that the
    baseline survives harmless edits (moved lines, reordered independent branches)."""
    name = re.sub(r"~\d+", "", name)
    name = re.sub(r"@L(\d+|None)", "", name)
    name = re.sub(r"@[TF\-]+((?:\.\d+)*)$", r"\1", name)
    name = re.sub(r"loop@\d+", "loop", name)
    return name


def load_known():
    out = []
    if os.path.exists(KNOWN_PATH):
        for line in open(KNOWN_PATH):
            line = line.strip()
            if line and not line.startswith("#"):
                out.append(json.loads(line))
    return out


def known_match(known, kind, key, sig=None):
    for k in known:
        if k.get("status") != "open":
            continue
        if kind == "standin" and k.get("check") == key and k.get("sig") == sig:
            return k
        if kind == "obligation" and k.get("obligation") == key:
            return k
    return None


# ---------------------------------------------------------------------- proof stage

def proof_stage(prop, plan, tier, registry):
    from pyvc.extract import Index
    from pyvc.verify import discharge, explore

    index = Index(REPO)
    reports = []
    timeout_ms = 10000 if tier == "quick" else 60000
    t0 = time.time()
    all_tasks = []
    only = set(filter(None, os.environ.get("VERIF_ONLY_FUNCS", "").split(",")))
    for q in plan.get("functions", []):
        if only and q not in only:
            continue
        c = registry.get(q)
        if c is None:
            continue
        try:
            rep, tasks = explore(c, index, registry)
        except Exception as e:  # checker bug: never a violation
            from pyvc.verify import FuncReport
            rep, tasks = FuncReport(q), []
            rep.error = f"internal: {type(e).__name__}: {e}"
            rep.tb = traceback.format_exc()
        rep.tasks = dict(tasks)
        reports.append(rep)
    # obligations decided by other back ends (sympy / AST), already carrying their verdict
    for prov in ([] if (only and "extra" not in only) else plan.get("extra", [])):
        from pyvc.verify import FuncReport
        mod, fn = prov.rsplit(".", 1)
        try:
            obls = getattr(importlib.import_module(mod), fn)(index)
        except Exception as e:
            rep = FuncReport(prov)
            rep.error = f"internal: {type(e).__name__}: {e}"
            rep.tasks = {}
            reports.append(rep)
            continue
        groups = {}
        for o in obls:
            groups.setdefault(o.get("function", prov), []).append(o)
        for q, os_ in groups.items():
            rep = FuncReport(q)
            fi = index.get(q)
            if fi is not None:
                rep.sha, rep.lines, rep.file = fi.sha, fi.lines, fi.file
            rep.paths = rep.returns = 1
            rep.obligations = os_
            rep.presolved = True
            rep.bkey = f"{q}@{prov}"
            rep.tasks = {}
            rep.trusted.add("sympy 1.14 (simplification to zero) for derivative obligations" if "derivative" in os_[0]["name"] else
                            ("assumed ownership contracts of NumPy primitives (which results are views / fresh, which calls write): pyvc/own.py tables" if ("#frame:" in os_[0]["name"] or "#noninterference:" in os_[0]["name"]) else ("formula obligations: sympy 1.14 decides algebraic equality of the assigned expression with the stated formula; non-arithmetic sub-expressions are atoms compared as source text; guard obligations (z3): x.norm() atoms are non-negative reals, tests that are not arithmetic comparisons are opaque Booleans, loops / early exits between a test and the assignment are ignored (only weakens the hypothesis)" if "#formula" in os_[0]["name"] else "AST pattern obligations (no solver)")))
            for o in os_:
                if o["status"] in ("missing", "unsupported"):
                    rep.aborts.append(dict(case="-", reason=o.get("solver_output") or o["status"], line=o.get("line")))
            reports.append(rep)
    # one pool over all functions
    from pyvc.solve import solve_all
    jobs, seen = [], set()
    for rep in reports:
        cover = {o["name"] for o in rep.obligations if o.get("expect_sat")}
        for name, smt in rep.tasks.items():
            if name in seen:
                continue
            seen.add(name)
            if name in cover:
                jobs.append((name, smt, 2000, False))
            else:
                jobs.append((name, smt, timeout_ms, True))
    hints = json.load(open(HINTS_PATH)) if os.path.exists(HINTS_PATH) else {}
    jobs = [j + (hints[j[0]],) if (j[3] and j[0] in hints) else j for j in jobs]  # keyed by the full obligation name (path included)
    res = solve_all(jobs)
    # anything left open gets a second, longer, less crowded attempt before a verdict is drawn
    # (keeps verdicts stable when the machine is busy)
    # (obligations recorded as open known findings are expected to stay open: no second attempt for them)
    _known_obl = {k.get("obligation") for k in load_known() if k.get("status") == "open" and k.get("obligation")}
    for factor, most, workers in ((3, 24, 16), (6, 8, 16)):
        open_ = [j for j in jobs if j[3] and res.get(j[0], {}).get("result") not in ("unsat", "sat") and norm_label(j[0]) not in _known_obl]
        if not open_ or len(open_) > most or os.environ.get("VERIF_NO_RETRY"):
            break
        # each open obligation: both solvers again with a longer limit, z3 under two other random seeds, and the z3 binary
        retry = []
        for j in open_:
            first = j[4] if len(j) > 4 else "z3"
            retry.append((j[0], j[1], factor * j[2], True, first))
            for seed in (11, 23, -1):  # -1: the stand-alone z3 binary
                retry.append((j[0] + "\x00%d" % seed, j[1], factor * j[2], False, "z3", seed))
        res2 = solve_all(retry, workers=workers)
        for j in open_:
            n = j[0]
            attempts = [res2[k] for k in (n, n + "\x0011", n + "\x0023", n + "\x00-1") if k in res2]
            spent = sum(r.get("time") or 0.0 for r in attempts)
            best = next((r for r in attempts if r["result"] in ("unsat", "sat")), attempts[0])
            best = dict(best, name=n, time=round(spent + (res[n].get("time") or 0.0), 3), retried=factor)
            res[n] = best
    for rep in reports:
        if getattr(rep, "presolved", False):
            continue
        for o in rep.obligations:
            r = res.get(o["name"])
            if r is None:
                o["status"] = "error"
                continue
            o["backend"], o["time"] = r["backend"], r["time"]
            if o.get("expect_sat"):
                o["status"] = "covered" if r["result"] != "unsat" else "vacuous"
            else:
                o["status"] = {"unsat": "discharged", "sat": "refuted"}.get(r["result"], "unknown")
                if r["result"] != "unsat":
                    o["solver_output"] = ((r["reason"] or "") + ("\n" + r["model"] if r.get("model") else ""))[:6000]
    return reports, time.time() - t0


def summarize_function(rep):
    labels = {}
    for o in rep.obligations:
        if o["kind"] == "cover":
            continue
        lab = norm_label(o["name"])
        st = labels.get(lab, "discharged")
        if o["status"] not in ("discharged",):
            st = o["status"] if st == "discharged" else st
        labels[lab] = st
    return labels


# ---------------------------------------------------------------------- main check

def run_property(prop, tier, seed):
    from contracts.plan import PLAN

    t_start = time.time()
    plan = PLAN[prop]
    registry = load_contracts()
    checks = load_standins()
    known = load_known()
    baseline = json.load(open(BASELINE_PATH)) if os.path.exists(BASELINE_PATH) else {}
    lines = []  # verdict lines
    violations = 0
    undecided = 0
    errors = 0
    known_hits = []
    os.makedirs(REPLAY_DIR, exist_ok=True)

    # ---- proof stage
    reports, proof_wall = proof_stage(prop, plan, tier, registry) if (plan.get("functions") or plan.get("extra")) else ([], 0.0)
    n_obl = n_dis = 0
    solver_time = 0.0
    backends = {}
    trusted = set()
    dropped = set()
    inlined = set()
    funcs_ev = []
    failing = []  # (rep, label, status, sample obligation)
    known_obls = []  # obligations failing by a recorded genuine defect
    sample_obls = []
    for rep in reports:
        labels = summarize_function(rep)
        base = baseline.get(getattr(rep, "bkey", rep.qual), {})
        # obligations that fail by a recorded genuine defect (open entry in KNOWN_FINDINGS.jsonl) are reported as
        # KNOWN-FINDING lines and listed separately in the evidence; they are neither counted as discharged nor as part of
        # what the proof-level claim covers
        kf = [o for o in rep.obligations if o["kind"] != "cover" and o["status"] != "discharged" and known_match(known, "obligation", norm_label(o["name"]))]
        known_obls += [o["name"] for o in kf]
        nf = len([o for o in rep.obligations if o["kind"] != "cover"]) - len(kf)
        nd = len([o for o in rep.obligations if o["kind"] != "cover" and o["status"] == "discharged"])
        n_obl += nf
        n_dis += nd
        for o in rep.obligations:
            solver_time += o.get("time") or 0.0
            if o.get("backend"):
                backends[o["backend"]] = backends.get(o["backend"], 0) + 1
        trusted |= rep.trusted
        dropped |= rep.dropped
        inlined |= rep.inlined
        if len(sample_obls) < 6:
            sample_obls += [o["name"] for o in rep.obligations[:2]]
        funcs_ev.append(dict(
            function=rep.qual, file=rep.file, lines=rep.lines, sha256_16=rep.sha, paths=rep.paths,
            returns=rep.returns, raises=rep.raises, obligations=nf, discharged=nd,
            aborts=rep.aborts[:5], error=rep.error,
        ))
        if rep.error:
            if rep.error == "missing function":
                lines.append(f"UNDECIDED property={prop} obligation={rep.qual} reason=function missing or renamed")
                undecided += 1
            else:
                lines.append(f"CHECKER-ERROR property={prop} function={rep.qual} {rep.error}")
                errors += 1
            continue
        # vacuity guard: per case, at least one returning path must have satisfiable hypotheses
        # (individual unsatisfiable paths are infeasible paths the quick pruning did not catch)
        covers = {}
        for o in rep.obligations:
            if o["kind"] == "cover":
                case = o["name"].split("[", 1)[1].split("]", 1)[0] if "[" in o["name"] else "-"
                covers.setdefault(case, []).append(o["status"])
        for case, sts in covers.items():
            if sts and all(st == "vacuous" for st in sts):
                lines.append(f"CHECKER-ERROR property={prop} vacuous hypotheses on every returning path of {rep.qual}[{case}]")
                errors += 1
        if nf == 0 and not rep.aborts:
            lines.append(f"CHECKER-ERROR property={prop} zero obligations generated for {rep.qual}")
            errors += 1
        for lab, st in labels.items():
            if st == "discharged":
                continue
            ob = next(o for o in rep.obligations if norm_label(o["name"]) == lab and o["status"] != "discharged")
            failing.append((rep, lab, st, ob))
        # baseline labels that vanished
        for lab in base:
            if lab not in labels:
                if rep.aborts:
                    lines.append(f"UNDECIDED property={prop} obligation={lab} reason=not generated; executor stopped: {rep.aborts[0]['reason']}")
                else:
                    lines.append(f"UNDECIDED property={prop} obligation={lab} reason=obligation no longer generated (control flow changed)")
                undecided += 1
        for ab in rep.aborts:
            lines.append(f"UNDECIDED property={prop} obligation={rep.qual}[{ab.get('case')}] reason=executor stopped: {ab['reason']} (line {ab.get('line')})")
            undecided += 1

    # ---- bounded stand-in stage
    from standin.core import run_check
    st_results = []
    budget = plan.get("budget_quick", 60) if tier == "quick" else plan.get("budget_thorough", 600)
    names = plan.get("standin", [])
    per = budget / max(1, len(names))
    st_fail = []
    for name in names:
        chk = checks.get(name)
        if chk is None:
            lines.append(f"CHECKER-ERROR property={prop} stand-in check {name} missing")
            errors += 1
            continue
        try:
            # cheap stand-ins run their full (thorough) scope on every change
            r = run_check(chk, plan.get("standin_tier_quick", tier) if tier == "quick" else tier, seed, budget_s=per)
        except Exception as e:
            lines.append(f"CHECKER-ERROR property={prop} stand-in {name}: {type(e).__name__}: {e}")
            errors += 1
            continue
        st_results.append(r)
        for f in r["failures"]:
            st_fail.append(f)

    # ---- verdicts for failing obligations
    for rep, lab, st, ob in failing:
        k = known_match(known, "obligation", lab)
        if k:
            known_hits.append(f"KNOWN-FINDING: property={prop} {k['what']} [obligation {lab}]")
            continue
        base = baseline.get(getattr(rep, "bkey", rep.qual), {})
        if hasattr(rep, "bkey"):
            # obligations of a provider may be attributed to another function when the code changes: look the label up
            # in everything that provider discharged on the reference tree
            prov = rep.bkey.split("@", 1)[1]
            base = {}
            for k_, v_ in baseline.items():
                if k_.endswith("@" + prov):
                    base.update(v_)
        # counterexample: a stand-in failure of a check that exercises this function
        cex = [f for f in st_fail if rep.qual in checks[f["check"]].funcs and not known_match(known, "standin", f["check"], f["sig"])]
        path = os.path.join(REPLAY_DIR, f"{prop}-obl-{zlib.crc32(lab.encode()):08x}.json")
        payload = dict(property=prop, kind="obligation", obligation=ob["name"], label=lab, status=st,
                       function=rep.qual, line=ob.get("line"), solver_output=ob.get("solver_output", ""),
                       smt2=rep.tasks.get(ob["name"], "")[:200000])
        if cex:
            payload["failing_input"] = cex[0]
            json.dump(payload, open(path, "w"), indent=1, default=str)
            lines.append(f"VIOLATION property={prop} replay={path}")
            violations += 1
        elif lab in base:
            json.dump(payload, open(path, "w"), indent=1, default=str)
            lines.append(f"VIOLATION property={prop} replay={path} obligation={lab} status={st} no-failing-input-found")
            violations += 1
        else:
            lines.append(f"UNDECIDED property={prop} obligation={lab} reason=solver {st}; not in the discharged baseline")
            undecided += 1

    # ---- verdicts for stand-in failures
    for f in st_fail:
        k = known_match(known, "standin", f["check"], f["sig"])
        if k:
            known_hits.append(f"KNOWN-FINDING: property={prop} {k['what']} [{f['check']} {f['sig']}]")
            continue
        path = os.path.join(REPLAY_DIR, f"{prop}-{f['check']}-{zlib.crc32(f['sig'].encode()):08x}.json")
        json.dump(dict(property=prop, kind="standin", **f), open(path, "w"), indent=1, default=str)
        lines.append(f"VIOLATION property={prop} replay={path} check={f['check']} class={f['sig']}")
        violations += 1

    wall = time.time() - t_start
    # ---- evidence
    evals = sum(r["evaluations"] for r in st_results)
    distinct = sum(r["distinct"] for r in st_results)
    samples = []
    for r in st_results:
        samples += [dict(check=r["check"], case=s) for s in r["samples"][:1]]
    samples += [dict(obligation=n) for n in sample_obls[:4]]
    proved_all = n_obl > 0 and n_dis == n_obl and errors == 0 and undecided == 0
    if plan.get("level") == "exploration":
        level = "exploration" if (errors == 0 and undecided == 0) else "other"
    else:
        level = plan.get("level", "proof") if proved_all else "other"
    used_contracts = sorted(t for t in trusted if t.startswith("contract:"))
    verified_here = {f"contract:{r.qual}" for r in reports if not r.error and all(o["status"] in ("discharged", "covered", "vacuous") for o in r.obligations)}
    trusted_base = sorted(t for t in trusted if not t.startswith("contract:"))
    def _cdesc(c):
        q = c.split(":", 1)[1]
        if getattr(registry.get(q), "assumed", False):
            return f"{c} (ASSUMED contract: body outside the executor's reach; validated only by the bounded stand-in)"
        return f"{c} (callee contract; {'verified in this run' if c in verified_here else 'verified under its own property'})"
    trusted_base += [_cdesc(c) for c in used_contracts]
    trusted_base += [f"dropped: {d}" for d in sorted(dropped)]
    trusted_base += [f"inlined callee body (executed, not assumed): {q}" for q in sorted(inlined)]
    trusted_base += list(plan.get("lemmas", []))
    coverage = dict(
        obligations=n_obl, discharged=n_dis,
        checker_cmd=f"./check {prop} --tier {tier}  (pyvc: ast -> z3 5.1 / cvc5 1.0.3, per-path obligations)",
        trusted_base=trusted_base,
        functions_under_contract=funcs_ev,
        solver_time_s=round(solver_time, 2), backends=backends, proof_wall_s=round(proof_wall, 2),
        proved_clauses=plan.get("proved", []),
        bounded_clauses=plan.get("bounded", []),
        not_addressed=plan.get("not_addressed", []),
        bounded=dict(
            label="bounded stand-in: contracts evaluated on the real functions over an enumerated small scope; NOT counted as proved",
            checks=[dict(check=r["check"], evaluations=r["evaluations"], distinct=r["distinct"], wall_s=r["wall_s"],
                         truncated_by_budget=r["truncated"], failures=len(r["failures"])) for r in st_results],
        ),
        evaluations=max(1, evals + n_obl),
        distinct_nontrivial=max(2, distinct) if (distinct or n_obl) else 0,
        rule="stand-in: each case is one enumerated input (shape x pattern x stored order x option); distinct = distinct JSON encodings; trivial cases (empty tensors) are counted because the properties name them. proof: one obligation per (function, case, path, clause).",
        samples=samples or [dict(note="no samples")],
        explanation=plan.get("explanation", "") + (
            (f" {len(known_obls)} further obligations fail by a recorded genuine defect (see known_finding_obligations) and are outside the counts." if known_obls else "") +
            ("" if proved_all else f" This run: {n_dis}/{n_obl} obligations discharged, {undecided} undecided, {errors} checker errors.")),
        known_findings=known_hits,
        known_finding_obligations=dict(
            count=len(known_obls), names=sorted(known_obls)[:20],
            note="obligations that FAIL because of a recorded genuine defect of the code (open entries of KNOWN_FINDINGS.jsonl): not discharged, "
                 "not included in `obligations`/`discharged`; the property does not hold on those paths"),
        exhaustive=False,
    )
    ev = dict(
        property_id=prop, tier=tier, seed=seed, level=level, coverage=coverage,
        assumptions=[
            "Python/NumPy integers are mathematical integers (no int64 overflow); floats are mathematical reals in proofs",
            "assumed contracts of NumPy/SciPy/numpy_groupies primitives (trusted_base entries 'numpy:*'), cross-checked only end-to-end: every proved postcondition is also evaluated on the real function under real NumPy by the bounded stand-in of the same property; the primitive models themselves are not separately validated",
            "python -O is not used (assert-based argument checks are live)",
        ] + list(plan.get("assumptions", [])) + _assumptions_from(plan),
        wall_s=round(wall, 2), violations=violations,
    )
    os.makedirs(EVID_DIR, exist_ok=True)
    json.dump(ev, open(os.path.join(EVID_DIR, f"{prop}.json"), "w"), indent=1, default=str)

    for h in sorted(set(known_hits)):
        print(h)
    for l in lines:
        print(l)
    print(f"SUMMARY property={prop} tier={tier} obligations={n_obl} discharged={n_dis} standin_evaluations={evals} "
          f"violations={violations} undecided={undecided} errors={errors} known={len(set(known_hits))} wall={wall:.1f}s")
    if violations:
        return 1
    if errors:
        return 3
    if undecided:
        return 2
    return 0


def _assumptions_from(plan):
    prov = plan.get("assumptions_from")
    if not prov:
        return []
    mod, fn = prov.rsplit(".", 1)
    try:
        return list(getattr(importlib.import_module(mod), fn)())
    except Exception as e:  # pragma: no cover
        return [f"(assumption provider {prov} failed: {e})"]


def rebaseline(props):
    from contracts.plan import PLAN
    registry = load_contracts()
    base = json.load(open(BASELINE_PATH)) if os.path.exists(BASELINE_PATH) else {}
    hints = json.load(open(HINTS_PATH)) if os.path.exists(HINTS_PATH) else {}
    if not props:
        hints = {}  # a full rebaseline starts from scratch
    for prop in props or list(PLAN):
        plan = PLAN[prop]
        if not (plan.get("functions") or plan.get("extra")):
            continue
        reports, _ = proof_stage(prop, plan, "quick", registry)
        for rep in reports:
            labels = summarize_function(rep)
            bk = getattr(rep, "bkey", rep.qual)
            # which back end to try first next time (a performance hint only: both are still tried)
            for o in rep.obligations:
                if o["kind"] != "cover" and o.get("backend"):
                    if o["backend"] in ("cvc5", "z3-cli", "z3-seed11", "z3-seed23"):
                        hints[o["name"]] = o["backend"]
                    else:
                        hints.pop(o["name"], None)
            base[bk] = {lab: "discharged" for lab, st in labels.items() if st == "discharged"}
            bad = {lab: st for lab, st in labels.items() if st != "discharged"}
            print(f"{bk}: {len(base[bk])} discharged labels; not discharged: {bad}; aborts: {len(rep.aborts)}")
            for o in rep.obligations:
                if o["kind"] != "cover" and o["status"] != "discharged":
                    print(f"    {o['status']} {o.get('backend')} {o.get('time')}s {o['name']}: {(o.get('solver_output') or '')[:160]!r}")
    json.dump(base, open(BASELINE_PATH, "w"), indent=1, sort_keys=True)
    json.dump(hints, open(HINTS_PATH, "w"), indent=1, sort_keys=True)


def replay(path):
    d = json.load(open(path))
    if d.get("kind") == "standin" or "failing_input" in d:
        f = d if d.get("kind") == "standin" else d["failing_input"]
        checks = load_standins()
        from standin.core import run_case
        r = run_case(checks[f["check"]], f["case"])
        if r is None:
            print(f"replay: {f['check']} passes on the current tree")
            return 0
        print(f"replay: {f['check']} FAILS: {r['sig']}: {r['msg']}")
        print(f"VIOLATION property={d['property']} replay={path}")
        return 1
    print(f"replay: obligation {d['obligation']} ({d['status']}); solver output:\n{d.get('solver_output', '')[:3000]}")
    return 1


def main():
    ap = argparse.ArgumentParser()
    ap.add_argument("prop", nargs="*")
    ap.add_argument("--tier", default=os.environ.get("VERIF_TIER", "quick"))
    ap.add_argument("--replay")
    ap.add_argument("--rebaseline", action="store_true")
    a = ap.parse_args()
    seed = int(os.environ.get("VERIF_SEED", "0"))
    if a.replay:
        sys.exit(replay(a.replay))
    if a.rebaseline:
        rebaseline(a.prop)
        return
    rc = 0
    for p in a.prop:
        try:
            rc = max(rc, run_property(p, a.tier, seed))
        except Exception as e:
            traceback.print_exc()
            try:
                os.makedirs(REPLAY_DIR, exist_ok=True)
                open(os.path.join(REPLAY_DIR, f"{p}-checker-error.txt"), "w").write(traceback.format_exc())
            except OSError:
                pass
            print(f"CHECKER-ERROR property={p} internal error: {type(e).__name__}: {str(e)[:200]}")
            rc = max(rc, 3)
    sys.exit(rc)


if __name__ == "__main__":
    main()
