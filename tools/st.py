#!/usr/bin/env python
"""Dev tool: run stand-in checks by name prefix and summarise failure classes. usage: st.py <prefix> [tier] [budget]"""
import sys, os, json
sys.path.insert(0, os.path.dirname(os.path.dirname(os.path.abspath(__file__))))
import runner
from standin.core import run_check
checks = runner.load_standins()
pref = sys.argv[1]; tier = sys.argv[2] if len(sys.argv) > 2 else "quick"; budget = float(sys.argv[3]) if len(sys.argv) > 3 else 120
for name, chk in checks.items():
    if not name.startswith(pref): continue
    r = run_check(chk, tier, 0, budget_s=budget, max_fail=60)
    print(f"== {name}: {r['evaluations']} cases, {r['distinct']} distinct, {r['wall_s']}s, truncated={r['truncated']}, failure classes={len(r['failures'])}")
    for f in r["failures"]:
        print(f"   [{f['count']:5d}] {f['sig']}\n          {f['msg'][:400]}")
