#!/usr/bin/env python3
"""Print a python file without docstrings/comments-only lines (for reading). usage: strip.py file [qualname-substr]"""
import ast, sys
src = open(sys.argv[1]).read()
tree = ast.parse(src)
lines = src.splitlines()
drop = set()
for node in ast.walk(tree):
    if isinstance(node, (ast.FunctionDef, ast.ClassDef, ast.Module, ast.AsyncFunctionDef)):
        b = node.body
        if b and isinstance(b[0], ast.Expr) and isinstance(b[0].value, ast.Constant) and isinstance(b[0].value.value, str):
            for l in range(b[0].lineno, b[0].end_lineno + 1):
                drop.add(l)
filt = sys.argv[2] if len(sys.argv) > 2 else None
ranges = None
if filt:
    ranges = []
    for node in ast.walk(tree):
        if isinstance(node, (ast.FunctionDef,)) and filt == node.name:
            ranges.append((node.lineno, node.end_lineno))
for i, l in enumerate(lines, 1):
    if i in drop: continue
    if l.strip().startswith('#') or not l.strip(): continue
    if ranges is not None and not any(a <= i <= b for a, b in ranges): continue
    print(f"{i:5d} {l}")
