#!/usr/bin/env python3
"""Regenerate MANIFEST.json from contracts/plan.py (claimed properties) and NOT_APPLICABLE below."""
import json, os, sys
HERE = os.path.dirname(os.path.dirname(os.path.abspath(__file__)))
sys.path.insert(0, HERE)
from contracts.plan import PLAN, NOT_APPLICABLE
props = [json.loads(l) for l in open(os.path.join(HERE, "properties.jsonl"))]
claimed = [p["id"] for p in props if p["id"] in PLAN and PLAN[p["id"]].get("claim", True)]
m = {
    "version": 1,
    "setup_cmd": "./setup.sh",
    "hooks": {
        "guard": "PYTTB_VERIF",
        "enable": "no source hooks: contracts are sidecar files under /verif/contracts keyed by qualified name; the checks read /repo through ast (proof stage) and import it unmodified (bounded stand-in)",
        "baseline_off_cmd": "cd /repo && /venv/bin/python -m pytest -ra -q -p no:cacheprovider --timeout=900 --continue-on-collection-errors",
        "source_commits": [],
        "add_only": True,
    },
    "engines": [
        {"name": "pyvc", "path": "pyvc/", "serves_properties": claimed,
         "kind_free_text": "contract-based deductive verification: per-path verification conditions generated on every run from the real pyttb ASTs against sidecar contracts and assumed NumPy contracts; discharged by z3 5.1, then cvc5 for z3's unknowns; sympy for the GCP derivative obligations"},
        {"name": "standin", "path": "standin/", "serves_properties": claimed,
         "kind_free_text": "bounded stand-in: contracts evaluated on the real functions over exhaustively enumerated small scopes (labelled bounded, never counted as proved); also the counterexample finder / replay for failed obligations"},
    ],
    "checks": [],
    "notes": "Exit codes: 0 held / 1 VIOLATION (replayed failing input, or an obligation of the discharged baseline that no longer discharges: 'no-failing-input-found') / 2 UNDECIDED (unsupported construct, never-proved obligation) / 3 checker error. Genuine defects found on the pinned tree were repaired by 'fix:' commits in /repo (KNOWN_FINDINGS.jsonl lists them as fixed) or are listed there as open findings.",
    "not_applicable": [],
}
for p in props:
    pid = p["id"]
    if pid in claimed:
        pl = PLAN[pid]
        lvl = pl.get("level", "proof")
        m["checks"].append({
            "property_id": pid,
            "quick_cmd": f"./check {pid} --tier quick",
            "thorough_cmd": f"./check {pid} --tier thorough",
            "evidence_file": f"evidence/{pid}.json",
            "replay_cmd_template": "./check --replay {path}",
            "engine": "pyvc",
            "level_claimed": {
                "category": lvl,
                "text": pl.get("claim_text") or (("Proved (for all sizes / orders / values, relative to the listed assumed NumPy contracts and lemmas): " + "; ".join(pl.get("proved", [])) + ". ") if pl.get("proved") else "") + ("Bounded stand-in only (not counted as proved): " + "; ".join(pl.get("bounded", [])) + "." if pl.get("bounded") else "") + (" Not addressed: " + "; ".join(pl["not_addressed"]) + "." if pl.get("not_addressed") else ""),
                "design_ref": f"DESIGN.md section 4 ({pid})",
            },
            "level_note": "Trusted base: assumed contracts of NumPy/SciPy/numpy_groupies primitives (validated against the real libraries on a small scope), lemmas listed in the evidence, integers mathematical, floats as reals in proofs. The evidence file lists every assumption used by the run.",
            "technique": pl.get("technique", ("contract-based deductive verification (VCs from the real AST, z3/cvc5)" + (" + bounded stand-in" if pl.get("standin") else "")) if (pl.get("functions") or pl.get("extra")) else "bounded stand-in only: run-time contracts on the real functions over an enumerated small scope (nothing proved yet)"),
        })
    else:
        m["not_applicable"].append({"property_id": pid, "reason": NOT_APPLICABLE.get(pid, "check not built yet (work in progress in this session)")})
json.dump(m, open(os.path.join(HERE, "MANIFEST.json"), "w"), indent=1)
print("claimed:", claimed)
