"""List the slow obligations (solver time above a threshold) of every function under contract.
Usage: python3 tools/slowobl.py [seconds]   (run with the interpreter of ./check)"""
import os, sys, json
sys.path.insert(0, os.path.dirname(os.path.dirname(os.path.abspath(__file__))))
os.environ["VERIF_NO_RETRY"] = "1"
import runner
from contracts.plan import PLAN

thr = float(sys.argv[1]) if len(sys.argv) > 1 else 3.0
reg = runner.load_contracts()
funcs = []
for p, pl in PLAN.items():
    for q in pl.get("functions", []):
        if q not in funcs:
            funcs.append(q)
reports, wall = runner.proof_stage("ALL", dict(functions=funcs), "quick", reg)
rows = []
for rep in reports:
    for o in rep.obligations:
        if (o.get("time") or 0) >= thr or o["status"] not in ("discharged", "covered"):
            rows.append((o.get("time") or 0, o.get("backend"), o["status"], o["name"]))
rows.sort(reverse=True)
for r in rows:
    print("%7.2f %-5s %-10s %s" % r)
print("functions", len(reports), "wall", round(wall, 1), "slow", len(rows))
