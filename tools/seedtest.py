#!/usr/bin/env python3
"""Confirm seeded changes and run the checks against them.

usage: seedtest.py import <src_dir> <seed_id>     # copy patch/demo/meta from a sub-agent dir into seeded/<id>
       seedtest.py confirm <seed_id>              # suite + demo with the change, demo without
       seedtest.py detect <seed_id> [props...]    # run ./check for the property (quick) against the change
       seedtest.py all [--jobs N] [ids...]        # confirm + detect (every) seeded change, rewrite DETECTION.md
       seedtest.py table                          # rewrite DETECTION.md from the recorded results

Every change is applied to a scratch git worktree of /repo under a temporary directory (removed straight
afterwards); /repo itself is never modified, and the checks are pointed at the worktree with PYTTB_REPO while
their evidence / replays go to a scratch directory (VERIF_OUT).
"""
import json
import os
import shutil
import subprocess
import sys
import tempfile
import time
from concurrent.futures import ThreadPoolExecutor

HERE = os.path.dirname(os.path.dirname(os.path.abspath(__file__)))
SEEDED = os.path.join(HERE, "seeded")
REPO = "/repo"


def sh(cmd, cwd=None, timeout=3600, env=None):
    p = subprocess.run(cmd, shell=True, cwd=cwd, capture_output=True, text=True, timeout=timeout, env=env)
    return p.returncode, p.stdout + p.stderr


class Worktree:
    def __init__(self, sid=None):
        self.sid = sid

    def __enter__(self):
        self.dir = tempfile.mkdtemp(prefix=f"seedwt-{self.sid or 'clean'}-")
        os.rmdir(self.dir)
        rc, out = sh(f"git -C {REPO} worktree add --detach -q {self.dir} HEAD")
        assert rc == 0, out
        self.applied = True
        if self.sid:
            sh(f"git -C {self.dir} apply {SEEDED}/{self.sid}/patch.diff 2>&1 || git -C {self.dir} apply --3way {SEEDED}/{self.sid}/patch.diff")
            rc2, out2 = sh(f"git -C {self.dir} diff HEAD --stat")
            self.applied = out2.strip() != ""
        return self

    def __exit__(self, *exc):
        sh(f"git -C {REPO} worktree remove --force {self.dir}")
        shutil.rmtree(self.dir, ignore_errors=True)
        sh(f"git -C {REPO} worktree prune")


def load_meta(sid):
    p = os.path.join(SEEDED, sid, "meta.json")
    return json.load(open(p)) if os.path.exists(p) else {}


def save_meta(sid, m):
    json.dump(m, open(os.path.join(SEEDED, sid, "meta.json"), "w"), indent=1)


def cmd_import(src, sid):
    dst = os.path.join(SEEDED, sid)
    os.makedirs(dst, exist_ok=True)
    for f in ("patch.diff", "demo.py", "meta.json"):
        shutil.copy(os.path.join(src, f), os.path.join(dst, f))
    m = load_meta(sid)
    m["id"] = sid
    save_meta(sid, m)


def cmd_confirm(sid, wt=None):
    m = load_meta(sid)
    res = {}

    def run_in(w):
        res["applies"] = w.applied
        if w.applied:
            rc, out = sh("/venv/bin/python -m pytest -q -p no:cacheprovider 2>&1 | tail -1", cwd=w.dir)
            res["suite_with_change"] = out.strip()
            rc, out = sh(f"/venv/bin/python {SEEDED}/{sid}/demo.py", cwd=w.dir, env=dict(os.environ, PYTHONPATH=w.dir))
            res["demo_with_change_rc"] = rc
            res["demo_with_change_tail"] = out.strip()[-300:]
    if wt is not None:
        run_in(wt)
    else:
        with Worktree(sid) as w:
            run_in(w)
    rc, out = sh(f"/venv/bin/python {SEEDED}/{sid}/demo.py", cwd=REPO, env=dict(os.environ, PYTHONPATH=REPO))
    res["demo_clean_rc"] = rc
    res["confirmed"] = bool(res.get("applies") and "208 passed" in res.get("suite_with_change", "") and res.get("demo_with_change_rc") == 1 and rc == 0)
    m["confirmation"] = res
    m["what_i_ran"] = ("scratch worktree of /repo + git apply patch.diff; pinned suite in the worktree; demo.py in the worktree (expect exit 1); "
                       "demo.py on the unchanged /repo (expect exit 0); worktree removed")
    save_meta(sid, m)
    print(sid, json.dumps(res)[:400], flush=True)
    return res


def cmd_detect(sid, props, wt=None):
    m = load_meta(sid)
    props = props or [m.get("property")]
    det = {}

    def run_in(w):
        for p in props:
            t0 = time.time()
            outdir = tempfile.mkdtemp(prefix="seedtest-out-")
            env = dict(os.environ, PYTTB_REPO=w.dir, VERIF_OUT=outdir, PYVC_WORKERS=os.environ.get("SEED_WORKERS", "6"))
            rc, out = sh(f"./check {p} --tier quick", cwd=HERE, env=env)
            shutil.rmtree(outdir, ignore_errors=True)
            lines = [l.replace(outdir, "<out>") for l in out.splitlines() if l.startswith(("VIOLATION", "UNDECIDED", "CHECKER-ERROR", "SUMMARY", "KNOWN"))]
            obl = [l for l in lines if l.startswith("VIOLATION") and ("-obl-" in l or "obligation=" in l)]
            sti = sorted({l.split("check=")[1].split()[0] for l in lines if l.startswith("VIOLATION") and "check=" in l})
            det[p] = dict(exit=rc, wall=round(time.time() - t0, 1), failed_obligations=len(obl), standins=sti,
                          lines=[l for l in lines if not l.startswith("UNDECIDED")][:10] + [l for l in lines if l.startswith("UNDECIDED")][:3])
    if wt is not None:
        run_in(wt)
    else:
        with Worktree(sid) as w:
            run_in(w)
    m.setdefault("detection", {}).update(det)
    save_meta(sid, m)
    for p, d in det.items():
        print(sid, p, "exit", d["exit"], "failed obligations", d["failed_obligations"], "stand-ins", d["standins"], flush=True)
    return det


def seeds():
    return sorted(s for s in os.listdir(SEEDED) if os.path.isdir(os.path.join(SEEDED, s)) and not s.startswith("_"))


def one(sid):
    try:
        with Worktree(sid) as w:
            cmd_confirm(sid, w)
            cmd_detect(sid, [], w)
    except Exception as e:  # pragma: no cover
        print(sid, "ERROR", e, flush=True)


def cmd_table():
    rows = []
    for sid in seeds():
        m = load_meta(sid)
        p = m.get("property")
        d = m.get("detection", {}).get(p, {})
        if "failed_obligations" not in d:
            ls = d.get("lines", [])
            d = dict(d, failed_obligations=len([l for l in ls if l.startswith("VIOLATION") and ("-obl-" in l or "obligation=" in l)]),
                     standins=sorted({l.split("check=")[1].split()[0] for l in ls if l.startswith("VIOLATION") and "check=" in l}))
        what = str(m.get("what") or m.get("summary") or m.get("change") or "").replace("|", "/").replace("\n", " ")
        rows.append((sid, p, m.get("confirmation", {}).get("confirmed"), d.get("exit"), d.get("failed_obligations"), ", ".join(d.get("standins", [])), what[:140]))
    with open(os.path.join(SEEDED, "DETECTION.md"), "w") as f:
        f.write("# Seeded changes vs. quick checks (regenerated by tools/seedtest.py all / table)\n\n"
                "Each change compiles, passes the pinned 208 doctests and breaks its property under a specific condition "
                "(confirmed: suite passes with the change, demo.py exits 1 with it and 0 without).  `check exit` 1 = detected.\n\n")
        f.write("| change | property | confirmed | check exit | failed proof obligations | stand-in checks that fail | what was changed |\n|---|---|---|---|---|---|---|\n")
        for r in rows:
            f.write("| " + " | ".join(str(x) for x in r) + " |\n")
    print(open(os.path.join(SEEDED, "DETECTION.md")).read())


if __name__ == "__main__":
    c = sys.argv[1]
    if c == "import":
        cmd_import(sys.argv[2], sys.argv[3])
    elif c == "confirm":
        cmd_confirm(sys.argv[2])
    elif c == "detect":
        cmd_detect(sys.argv[2], sys.argv[3:])
    elif c == "table":
        cmd_table()
    elif c == "all":
        jobs = int(sys.argv[sys.argv.index("--jobs") + 1]) if "--jobs" in sys.argv else 3
        only = [a for a in sys.argv[2:] if a.startswith("C")]
        todo = only or seeds()
        with ThreadPoolExecutor(max_workers=jobs) as ex:
            list(ex.map(one, todo))
        cmd_table()
