#!/usr/bin/env python3
"""Confirm seeded changes and run the checks against them.

usage: seedtest.py import <src_dir> <seed_id>    # copy patch/demo/meta from a sub-agent dir into seeded/<id>
       seedtest.py confirm <seed_id>             # apply to /repo, run suite + demo, undo; demo on clean tree
       seedtest.py detect <seed_id> [props...]   # apply, run ./check for the property (quick), undo; record result
All modifications of /repo are undone with `git -C /repo checkout -- .` straight afterwards.
"""
import json
import os
import shutil
import subprocess
import sys
import time

HERE = os.path.dirname(os.path.dirname(os.path.abspath(__file__)))
SEEDED = os.path.join(HERE, "seeded")
REPO = "/repo"


def sh(cmd, cwd=None, timeout=3600):
    p = subprocess.run(cmd, shell=True, cwd=cwd, capture_output=True, text=True, timeout=timeout)
    return p.returncode, p.stdout + p.stderr


def clean():
    rc, out = sh("git -C /repo status --porcelain --untracked-files=no")
    return out.strip() == ""


def apply(sid):
    assert clean(), "repo not clean"
    rc, out = sh(f"git -C /repo apply {SEEDED}/{sid}/patch.diff 2>&1 || (git -C /repo apply --3way {SEEDED}/{sid}/patch.diff; git -C /repo reset -q)")
    rc2, out2 = sh("git -C /repo diff --stat")
    return out2.strip() != "", out + out2


def undo():
    sh("git -C /repo reset -q ; git -C /repo checkout HEAD -- .")
    assert clean()


def load_meta(sid):
    p = os.path.join(SEEDED, sid, "meta.json")
    return json.load(open(p)) if os.path.exists(p) else {}


def save_meta(sid, m):
    json.dump(m, open(os.path.join(SEEDED, sid, "meta.json"), "w"), indent=1)


def cmd_import(src, sid):
    dst = os.path.join(SEEDED, sid)
    os.makedirs(dst, exist_ok=True)
    for f in ("patch.diff", "demo.py", "meta.json"):
        shutil.copy(os.path.join(src, f), os.path.join(dst, f))
    m = load_meta(sid)
    m["id"] = sid
    save_meta(sid, m)


def cmd_confirm(sid):
    m = load_meta(sid)
    ok, out = apply(sid)
    res = {"applies": ok}
    try:
        if ok:
            rc, out = sh("/venv/bin/python -m pytest -q -p no:cacheprovider 2>&1 | tail -1", cwd=REPO)
            res["suite_with_change"] = out.strip()
            rc, out = sh(f"/venv/bin/python {SEEDED}/{sid}/demo.py", cwd=REPO)
            res["demo_with_change_rc"] = rc
            res["demo_with_change_tail"] = out.strip()[-300:]
    finally:
        undo()
    rc, out = sh(f"/venv/bin/python {SEEDED}/{sid}/demo.py", cwd=REPO)
    res["demo_clean_rc"] = rc
    res["confirmed"] = bool(ok and "208 passed" in res.get("suite_with_change", "") and res.get("demo_with_change_rc") == 1 and rc == 0)
    m["confirmation"] = res
    m["what_i_ran"] = "git -C /repo apply patch.diff; pytest (pinned suite); demo.py with the change; git checkout -- .; demo.py on the clean tree"
    save_meta(sid, m)
    print(sid, json.dumps(res)[:600])


def cmd_detect(sid, props):
    m = load_meta(sid)
    props = props or [m.get("property")]
    ok, out = apply(sid)
    det = {}
    try:
        for p in props:
            t0 = time.time()
            rc, out = sh(f"./check {p} --tier quick", cwd=HERE)
            lines = [l for l in out.splitlines() if l.startswith(("VIOLATION", "UNDECIDED", "CHECKER-ERROR", "SUMMARY", "KNOWN"))]
            det[p] = dict(exit=rc, wall=round(time.time() - t0, 1), lines=lines[:8])
    finally:
        undo()
    m.setdefault("detection", {}).update(det)
    save_meta(sid, m)
    for p, d in det.items():
        print(sid, p, "exit", d["exit"], *d["lines"][:4], sep="\n   ")


if __name__ == "__main__":
    c = sys.argv[1]
    if c == "import":
        cmd_import(sys.argv[2], sys.argv[3])
    elif c == "confirm":
        cmd_confirm(sys.argv[2])
    elif c == "detect":
        cmd_detect(sys.argv[2], sys.argv[3:])
