#!/usr/bin/env python3
"""Mutation self-test of the contracts and of the engine.

For every function under contract (contracts/plan.py) small AST mutants of the *real* function are
written into scratch copies of /repo/pyttb (under a temporary directory that is removed at the end),
and the property's quick check is run against each copy with the proof stage restricted to that
function.  A mutant is

  proof-killed    a baseline obligation of the function is no longer discharged (or no longer generated)
  standin-killed  a bounded stand-in of the property fails
  survived        neither

The interesting rows are `standin-killed but not proof-killed` (a behaviour change the contract does
not pin down, or an unsound engine) and `proof-killed but standin-clean and doctests pass` (either an
equivalent mutant reported as a violation = brittle proof, or a gap of the stand-in).  Results go to
selftest/MUTATION_REPORT.json; nothing here is part of a registered check.

usage: tools/mutself.py [Cxx ...] [--jobs 8] [--max-per-function 12] [--function SUFFIX]
"""
import argparse
import ast
import copy
import json
import os
import random
import shutil
import subprocess
import sys
import tempfile
import time
from concurrent.futures import ThreadPoolExecutor

HERE = os.path.dirname(os.path.dirname(os.path.abspath(__file__)))
sys.path.insert(0, HERE)
REPO = "/repo"

CMP = {ast.Lt: ast.LtE, ast.LtE: ast.Lt, ast.Gt: ast.GtE, ast.GtE: ast.Gt, ast.Eq: ast.NotEq, ast.NotEq: ast.Eq}
BIN = {ast.Add: ast.Sub, ast.Sub: ast.Add}
CALLSWAP = {"logical_and": "logical_or", "logical_or": "logical_and", "min": "max", "max": "min",
            "vstack": "hstack", "argmin": "argmax", "zeros": "ones"}


def mutants_of(fn: ast.FunctionDef):
    """Yield (description, mutated FunctionDef)."""
    nodes = [n for n in ast.walk(fn)]
    doc = ast.get_docstring(fn)
    k = 0
    for i, n in enumerate(nodes):
        def mk(edit, desc):
            f2 = copy.deepcopy(fn)
            n2 = [m for m in ast.walk(f2)][i]
            edit(n2)
            return desc + f" @L{getattr(n, 'lineno', '?')}", f2
        if isinstance(n, ast.Compare) and len(n.ops) == 1 and type(n.ops[0]) in CMP:
            yield mk(lambda m: m.ops.__setitem__(0, CMP[type(m.ops[0])]()), f"cmp {type(n.ops[0]).__name__}->{CMP[type(n.ops[0])].__name__}")
        if isinstance(n, ast.BinOp) and type(n.op) in BIN and not any(isinstance(x, ast.Constant) and isinstance(x.value, str) for x in (n.left, n.right)) and not any(isinstance(x, ast.JoinedStr) for x in (n.left, n.right)):
            yield mk(lambda m: setattr(m, "op", BIN[type(m.op)]()), f"binop {type(n.op).__name__}->{BIN[type(n.op)].__name__}")
        if isinstance(n, ast.Constant) and isinstance(n.value, int) and not isinstance(n.value, bool) and n.value in (0, 1, 2, -1):
            yield mk(lambda m: setattr(m, "value", m.value + 1), f"const {n.value}->{n.value + 1}")
        if isinstance(n, ast.Constant) and isinstance(n.value, bool):
            yield mk(lambda m: setattr(m, "value", not m.value), f"const {n.value}->{not n.value}")
        if isinstance(n, ast.Constant) and n.value in ("F", "C"):
            yield mk(lambda m: setattr(m, "value", "C" if m.value == "F" else "F"), f"order {n.value} flipped")
        if isinstance(n, ast.UnaryOp) and isinstance(n.op, ast.Not):
            f2 = copy.deepcopy(fn)
            for parent in ast.walk(f2):
                for field, val in ast.iter_fields(parent):
                    if isinstance(val, ast.UnaryOp) and isinstance(val.op, ast.Not) and getattr(val, "lineno", None) == n.lineno and getattr(val, "col_offset", None) == n.col_offset:
                        setattr(parent, field, val.operand)
            yield f"drop not @L{n.lineno}", f2
        if isinstance(n, ast.Call) and isinstance(n.func, ast.Attribute) and n.func.attr in CALLSWAP:
            yield mk(lambda m: setattr(m.func, "attr", CALLSWAP[m.func.attr]), f"call {n.func.attr}->{CALLSWAP[n.func.attr]}")
        if isinstance(n, ast.Call) and len(n.args) >= 2 and all(isinstance(a, ast.Name) for a in n.args[:2]) and n.args[0].id != n.args[1].id:
            def swap(m):
                m.args[0], m.args[1] = m.args[1], m.args[0]
            yield mk(swap, f"swap args {n.args[0].id},{n.args[1].id}")
        if isinstance(n, ast.Subscript) and isinstance(n.slice, ast.Slice) and n.slice.step is None and n.slice.upper is not None and n.slice.lower is None:
            def bump(m):
                m.slice.upper = ast.BinOp(left=m.slice.upper, op=ast.Sub(), right=ast.Constant(1))
            yield mk(bump, "slice upper-1")


def render(path, fn_node, new_fn):
    src = open(path).read().splitlines(keepends=True)
    start = min([fn_node.lineno] + [d.lineno for d in fn_node.decorator_list]) - 1
    end = fn_node.end_lineno
    indent = " " * fn_node.col_offset
    ast.fix_missing_locations(new_fn)
    text = ast.unparse(new_fn)
    text = "".join(indent + l + "\n" if l.strip() else "\n" for l in text.splitlines())
    return "".join(src[:start]) + text + "".join(src[end:])


def find_fn(tree, qual_parts):
    body = tree.body
    node = None
    for part in qual_parts:
        node = None
        for n in body:
            if isinstance(n, (ast.FunctionDef, ast.ClassDef)) and n.name == part:
                node = n  # last definition wins
        if node is None:
            return None
        body = node.body
    return node


def run(cmd, env=None, timeout=1800):
    p = subprocess.run(cmd, shell=True, capture_output=True, text=True, env=env, timeout=timeout)
    return p.returncode, p.stdout + p.stderr


def job(task):
    (mid, prop, qual, relfile, newsrc, desc, root) = task
    d = os.path.join(root, f"m{mid}")
    os.makedirs(d)
    try:
        shutil.copytree(os.path.join(REPO, "pyttb"), os.path.join(d, "pyttb"))
        with open(os.path.join(d, relfile), "w") as f:
            f.write(newsrc)
        # compiles?
        rc, out = run(f"/venv/bin/python -m py_compile {os.path.join(d, relfile)}")
        if rc != 0:
            return dict(id=mid, prop=prop, function=qual, mutation=desc, status="does-not-compile")
        rc, out = run(f"cd {d} && /venv/bin/python -m pytest -q -p no:cacheprovider --doctest-modules {relfile} 2>&1 | tail -1")
        suite = "passed" in out and "failed" not in out and "error" not in out
        env = dict(os.environ, PYTTB_REPO=d, VERIF_OUT=os.path.join(d, "out"), VERIF_ONLY_FUNCS=qual, PYVC_WORKERS="3", VERIF_NO_RETRY="1")
        t0 = time.time()
        try:
            rc, out = run(f"{HERE}/check {prop} --tier quick", env=env, timeout=900)
        except subprocess.TimeoutExpired:
            return dict(id=mid, prop=prop, function=qual, mutation=desc, doctests_pass=suite, exit=None, proof_killed=False, standin_killed=False,
                        standins=[], refuted=0, undecided=0, checker_errors=["timeout after 900 s"], wall=900.0, first=[])
        lines = [l for l in out.splitlines() if l.startswith(("VIOLATION", "UNDECIDED", "CHECKER-ERROR", "SUMMARY", "KNOWN"))]
        obl = [l for l in lines if (l.startswith("VIOLATION") and "-obl-" in l) or l.startswith("UNDECIDED")]
        sti = sorted({l.split("check=")[1].split()[0] for l in lines if l.startswith("VIOLATION") and "check=" in l})
        err = [l for l in lines if l.startswith("CHECKER-ERROR")]
        return dict(id=mid, prop=prop, function=qual, mutation=desc, doctests_pass=suite, exit=rc,
                    proof_killed=bool(obl), standin_killed=bool(sti), standins=sti,
                    refuted=len([l for l in obl if l.startswith("VIOLATION")]), undecided=len([l for l in obl if l.startswith("UNDECIDED")]),
                    checker_errors=err[:2], wall=round(time.time() - t0, 1), first=[l[:220] for l in (obl[:2] + [l for l in lines if "check=" in l][:1])])
    finally:
        shutil.rmtree(d, ignore_errors=True)


def main():
    ap = argparse.ArgumentParser()
    ap.add_argument("props", nargs="*")
    ap.add_argument("--jobs", type=int, default=5)
    ap.add_argument("--max-per-function", type=int, default=12)
    ap.add_argument("--function", default=None)
    ap.add_argument("--seed", type=int, default=0)
    a = ap.parse_args()
    from contracts.plan import PLAN
    rng = random.Random(a.seed)
    seen_fn = set()
    tasks = []
    root = tempfile.mkdtemp(prefix="mutself-")
    mid = 0
    for prop in (a.props or sorted(PLAN)):
        for qual in PLAN[prop].get("functions", []):
            if qual in seen_fn or (a.function and not qual.endswith(a.function)):
                continue
            seen_fn.add(qual)
            parts = qual.split(".")
            # pyttb.<module...>.<Class>.<fn> or pyttb.<module>.<fn>
            for cut in range(len(parts) - 1, 0, -1):
                rel = os.path.join(*parts[:cut]) + ".py"
                if os.path.exists(os.path.join(REPO, rel)):
                    break
            else:
                continue
            tree = ast.parse(open(os.path.join(REPO, rel)).read())
            fn = find_fn(tree, parts[cut:])
            if fn is None:
                continue
            body_only = copy.deepcopy(fn)
            ms = []
            doc = ast.get_docstring(fn)
            for desc, f2 in mutants_of(fn):
                if ast.get_docstring(f2) != doc:
                    continue  # the mutation hit the docstring
                if ast.dump(f2) == ast.dump(fn):
                    continue
                ms.append((desc, f2))
            rng.shuffle(ms)
            for desc, f2 in ms[: a.max_per_function]:
                mid += 1
                tasks.append((mid, prop, qual, rel, render(os.path.join(REPO, rel), fn, f2), desc, root))
    print(f"{len(tasks)} mutants of {len(seen_fn)} functions", flush=True)
    res = []
    try:
        with ThreadPoolExecutor(max_workers=a.jobs) as ex:
            for r in ex.map(job, tasks):
                res.append(r)
                print(json.dumps(r), flush=True)
    finally:
        shutil.rmtree(root, ignore_errors=True)
    os.makedirs(os.path.join(HERE, "selftest"), exist_ok=True)
    outp = os.path.join(HERE, "selftest", "MUTATION_REPORT.json")
    old = json.load(open(outp)) if os.path.exists(outp) and (a.props or a.function) else {"mutants": []}
    keep = [m for m in old["mutants"] if m["function"] not in seen_fn]
    allm = keep + res
    ok = [m for m in allm if m.get("status") != "does-not-compile"]
    summ = dict(
        mutants=len(ok),
        proof_killed=len([m for m in ok if m["proof_killed"]]),
        standin_killed=len([m for m in ok if m["standin_killed"]]),
        killed_by_either=len([m for m in ok if m["proof_killed"] or m["standin_killed"]]),
        standin_only=len([m for m in ok if m["standin_killed"] and not m["proof_killed"]]),
        proof_only=len([m for m in ok if m["proof_killed"] and not m["standin_killed"]]),
        survived=len([m for m in ok if not m["proof_killed"] and not m["standin_killed"]]),
    )
    json.dump(dict(summary=summ, mutants=allm), open(outp, "w"), indent=1)
    print(json.dumps(summ))


if __name__ == "__main__":
    main()
