#!/usr/bin/env python
"""Dev tool: verify one function and print the report.  usage: vf.py <qualname> [timeout_ms]"""
import sys, os, time
sys.path.insert(0, os.path.dirname(os.path.dirname(os.path.abspath(__file__))))
import importlib
for m in ("utils", "sptensor", "gcp", "mats", "ktensor", "tensor", "misc"):
    try:
        importlib.import_module("contracts." + m)
    except ModuleNotFoundError as e:
        if "contracts." + m not in str(e): raise
from pyvc.verify import verify_function
from pyvc.contract import REGISTRY
q = sys.argv[1]
if q not in REGISTRY:
    cands = [k for k in REGISTRY if k.endswith(q)]
    q = cands[0]
t0 = time.time()
tm = [int(a) for a in sys.argv[2:] if a.isdigit()]
rep = verify_function(q, timeout_ms=tm[0] if tm else 10000)
print(f"== {rep.qual} sha={rep.sha} paths={rep.paths} returns={rep.returns} raises={rep.raises} gen={rep.gen_time:.1f}s total={time.time()-t0:.1f}s")
if rep.error: print("ERROR", rep.error)
for a in rep.aborts: print("  ABORT", a)
for o in rep.obligations:
    flag = "ok " if o["status"] in ("discharged", "covered", "vacuous") else "!! "
    if "-v" in sys.argv or flag == "!! ":
        print("  ", flag, o["status"], o.get("backend"), o.get("time"), o["name"], f"L{o['line']}")
        if flag == "!! " and "-m" in sys.argv: print("      ", (o.get("solver_output") or "")[:1500])
print(f"obligations={rep.n_obl} discharged={rep.n_discharged} failed={len(rep.failed())}")
print("trusted:", sorted(rep.trusted)); print("dropped:", sorted(rep.dropped)); print("inlined:", sorted(rep.inlined))
if "-d" in sys.argv:
    name = sys.argv[sys.argv.index("-d") + 1]
    for k, v in rep.smt.items():
        if name in k:
            open("/tmp/obl.smt2", "w").write(v); print("dumped", k); break
